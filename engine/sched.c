/* Deterministic coroutine scheduler + bounded schedule enumerator (see vsched.h).
 *
 * Context switch: hand-rolled for x86-64 (callee-saved registers + stack pointer; no signal mask
 * system call as in swapcontext), <ucontext.h> elsewhere. Under AddressSanitizer every switch is
 * announced with __sanitizer_start/finish_switch_fiber and a recycled stack is unpoisoned, so ASan
 * stays quiet and keeps working inside the coroutines.
 *
 * This file provides the strong definitions of upipe_verif_yield and upipe_verif_eventfd (the weak
 * no-op defaults of verif_rt.c are overridden only in the binaries that link this file). */
#include "vsched.h"
#include <stdlib.h>
#include <stdio.h>
#include <string.h>
#include <signal.h>
#include <unistd.h>
#include <errno.h>
#include <sys/mman.h>
#include <sys/wait.h>

#if defined(__has_feature)
# if __has_feature(address_sanitizer)
#  define VS_ASAN 1
# endif
#endif
#if defined(__SANITIZE_ADDRESS__) && !defined(VS_ASAN)
# define VS_ASAN 1
#endif
#ifdef VS_ASAN
void __sanitizer_start_switch_fiber(void **fake_stack_save, const void *bottom, size_t size);
void __sanitizer_finish_switch_fiber(void *fake_stack_save, const void **bottom_old, size_t *size_old);
void __asan_unpoison_memory_region(void const volatile *addr, size_t size);
# define VS_STACK (512 * 1024)
#else
# define VS_STACK (128 * 1024)
#endif

#if defined(__x86_64__)
# define VS_ASM_SWITCH 1
void vs_ctx_switch(void **save_sp, void *new_sp);
__asm__(
    ".text\n"
    ".globl vs_ctx_switch\n"
    ".type vs_ctx_switch,@function\n"
    "vs_ctx_switch:\n"
    "    pushq %rbp\n"
    "    pushq %rbx\n"
    "    pushq %r12\n"
    "    pushq %r13\n"
    "    pushq %r14\n"
    "    pushq %r15\n"
    "    movq %rsp, (%rdi)\n"
    "    movq %rsi, %rsp\n"
    "    popq %r15\n"
    "    popq %r14\n"
    "    popq %r13\n"
    "    popq %r12\n"
    "    popq %rbx\n"
    "    popq %rbp\n"
    "    ret\n"
    ".size vs_ctx_switch,.-vs_ctx_switch\n");
#else
# include <ucontext.h>
#endif

enum { T_UNUSED = 0, T_NEW, T_READY, T_BLOCKED, T_DONE };

struct vs_thread {
    int id, state;
    void (*fn)(void *);
    void *arg;
    uint8_t *stack;
#ifdef VS_ASM_SWITCH
    void *sp;
#else
    ucontext_t uc;
#endif
    void *fake;                       /* ASan fake stack handle */
    const void *wait_fd;
    bool wait_blocked;                /* the descriptor was not readable when vs_wait was called */
    int pending_kind;
    const volatile void *pending_addr;
    int cur_op;                       /* index in vs_hist or -1 */
    unsigned prio;
    unsigned last_step;               /* step index of the last step run by this thread */
    bool ran;                         /* ran at least one step */
};

struct vs_fd { const void *addr; unsigned value; bool used; };

static struct {
    bool active;
    int cur;                          /* running coroutine or -1 */
    int last;                         /* thread that ran the previous step or -1 */
    struct vs_thread th[VS_MAX_THREADS];
    struct vs_fd fd[VS_MAX_FDS];
#ifdef VS_ASM_SWITCH
    void *main_sp;
#else
    ucontext_t main_uc;
#endif
    void *main_fake;
    const void *main_bottom;
    size_t main_size;
    bool abort_req;
    uint32_t seq;
    int seq_op;                       /* operation open in sequential context or -1 */
    int runs;
} vs;

static void (*vs_op_start_cb)(int);
static uint8_t *vs_stacks[VS_MAX_THREADS];   /* allocated once per process, recycled */

struct vs_op vs_hist[VS_MAX_OPS];
int vs_nhist;
struct vs_stats vs_stats;
uint8_t vs_tr_thread[VS_MAX_STEPS + 8];
uint8_t vs_tr_enabled[VS_MAX_STEPS + 8];
uint8_t vs_tr_kind[VS_MAX_STEPS + 8];
const volatile void *vs_tr_addr[VS_MAX_STEPS + 8];
unsigned vs_first_run_steps;
int vs_nthreads;
char vs_errmsg[160];

/* ------------------------------------------------------------------ context switching */

static void to_sched(struct vs_thread *t)
{
#ifdef VS_ASAN
    __sanitizer_start_switch_fiber(t->state == T_DONE ? NULL : &t->fake, vs.main_bottom, vs.main_size);
#endif
#ifdef VS_ASM_SWITCH
    vs_ctx_switch(&t->sp, vs.main_sp);
#else
    swapcontext(&t->uc, &vs.main_uc);
#endif
#ifdef VS_ASAN
    __sanitizer_finish_switch_fiber(t->fake, &vs.main_bottom, &vs.main_size);
#endif
}

static void to_thread(struct vs_thread *t)
{
#ifdef VS_ASAN
    __sanitizer_start_switch_fiber(&vs.main_fake, t->stack, VS_STACK);
#endif
    vs.cur = t->id;
#ifdef VS_ASM_SWITCH
    vs_ctx_switch(&vs.main_sp, t->sp);
#else
    swapcontext(&vs.main_uc, &t->uc);
#endif
    vs.cur = -1;
#ifdef VS_ASAN
    __sanitizer_finish_switch_fiber(vs.main_fake, NULL, NULL);
#endif
}

static void vs_trampoline(void)
{
    struct vs_thread *t = &vs.th[vs.cur];
#ifdef VS_ASAN
    __sanitizer_finish_switch_fiber(NULL, &vs.main_bottom, &vs.main_size);
#endif
    t->fn(t->arg);
    t->state = T_DONE;
    to_sched(t);
    abort(); /* a finished coroutine is never resumed */
}

/* ------------------------------------------------------------------ session */

void vs_reset(void)
{
    memset(&vs, 0, sizeof(vs));
    vs.active = true;
    vs.cur = -1;
    vs.last = -1;
    vs.seq_op = -1;
    vs_nhist = 0;
    vs_nthreads = 0;
    memset(&vs_stats, 0, sizeof(vs_stats));
    vs_first_run_steps = 0;
    vs_errmsg[0] = '\0';
    vs_op_start_cb = NULL;
}

void vs_end(void)
{
    vs.active = false;
    vs.cur = -1;
}

int vs_spawn(void (*fn)(void *), void *arg)
{
    if (!vs.active || vs_nthreads >= VS_MAX_THREADS)
        return -1;
    int id = vs_nthreads++;
    struct vs_thread *t = &vs.th[id];
    memset(t, 0, sizeof(*t));
    t->id = id;
    t->state = T_NEW;
    t->fn = fn;
    t->arg = arg;
    t->cur_op = -1;
    if (vs_stacks[id] == NULL) {
        /* page aligned, never freed: recycled by every case of the process */
        if (posix_memalign((void **)&vs_stacks[id], 4096, VS_STACK) != 0)
            return -1;
    }
    t->stack = vs_stacks[id];
#ifdef VS_ASAN
    /* an abandoned coroutine (deadlock, step bound) leaves poisoned frames behind */
    __asan_unpoison_memory_region(t->stack, VS_STACK);
#endif
#ifdef VS_ASM_SWITCH
    uintptr_t top = ((uintptr_t)t->stack + VS_STACK) & ~(uintptr_t)15;
    void **sp = (void **)(top - 16);
    sp[0] = (void *)vs_trampoline;   /* "return address" popped by the first switch */
    sp[1] = NULL;
    sp -= 6;                         /* rbp rbx r12 r13 r14 r15 */
    memset(sp, 0, 6 * sizeof(void *));
    t->sp = sp;
#else
    getcontext(&t->uc);
    t->uc.uc_stack.ss_sp = t->stack;
    t->uc.uc_stack.ss_size = VS_STACK;
    t->uc.uc_link = NULL;
    makecontext(&t->uc, vs_trampoline, 0);
#endif
    return id;
}

int vs_self(void) { return vs.cur; }

/* ------------------------------------------------------------------ virtual descriptors */

static struct vs_fd *fd_find(const void *addr)
{
    for (int i = 0; i < VS_MAX_FDS; i++)
        if (vs.fd[i].used && vs.fd[i].addr == addr)
            return &vs.fd[i];
    return NULL;
}

int vs_fd_value(const void *addr)
{
    struct vs_fd *f = fd_find(addr);
    return f ? (int)f->value : -1;
}

int vs_fd_count(void)
{
    int n = 0;
    for (int i = 0; i < VS_MAX_FDS; i++) n += vs.fd[i].used;
    return n;
}

/* hook: op is enum uverif_kind (READ 8, WRITE 9, INIT 10, CLEAN 11); >= 0 = handled */
int upipe_verif_eventfd(int op, void *ueventfd, int arg)
{
    if (!vs.active)
        return -1;
    struct vs_fd *f = fd_find(ueventfd);
    switch (op) {
    case 10: /* INIT */
        if (f == NULL)
            for (int i = 0; i < VS_MAX_FDS; i++)
                if (!vs.fd[i].used) { f = &vs.fd[i]; break; }
        if (f == NULL)
            return 0; /* too many: initialisation "fails" */
        f->used = true;
        f->addr = ueventfd;
        f->value = arg ? 1 : 0;
        return 1;
    case 8: /* READ: non-semaphore eventfd, a read returns and zeroes the counter */
        if (f == NULL) return -1;
        vs_stats.fd_reads++;
        f->value = 0;
        return 1;
    case 9: /* WRITE: adds 1 */
        if (f == NULL) return -1;
        vs_stats.fd_writes++;
        if (f->value < 0x7fffffff) f->value++;
        return 1;
    case 11: /* CLEAN */
        if (f == NULL) return -1;
        f->used = false;
        return 1;
    }
    return -1;
}

/* ------------------------------------------------------------------ scheduling points */

void vs_yield(int kind, const volatile void *addr)
{
    if (vs.cur < 0)
        return;
    struct vs_thread *t = &vs.th[vs.cur];
    t->pending_kind = kind;
    t->pending_addr = addr;
    to_sched(t);
}

void upipe_verif_yield(int kind, const volatile void *addr)
{
    if (vs.cur < 0)
        return;
    vs_yield(kind, addr);
}

void vs_wait(const void *ueventfd)
{
    if (vs.cur < 0)
        return;
    struct vs_thread *t = &vs.th[vs.cur];
    struct vs_fd *f = fd_find(ueventfd);
    vs_stats.waits++;
    t->state = T_BLOCKED;
    t->wait_fd = ueventfd;
    t->wait_blocked = f == NULL || f->value == 0;
    t->pending_kind = VS_K_WAKE;
    t->pending_addr = ueventfd;
    to_sched(t);
    /* resumed by the scheduler: the descriptor was readable at that instant */
    if (t->wait_blocked)
        vs_stats.slept_woken++;
    t->wait_fd = NULL;
}

void vs_abort(void)
{
    vs.abort_req = true;
    if (vs.cur >= 0) {
        struct vs_thread *t = &vs.th[vs.cur];
        t->pending_kind = VS_K_USER;
        t->pending_addr = NULL;
        to_sched(t);
        /* never resumed */
        abort();
    }
}

/* ------------------------------------------------------------------ history */

/* The invocation of an operation started on a coroutine is dated lazily, at the step that performs
 * its first shared access (or at its response if it has none): what the thread does between the call
 * and that access is local, so the same execution is produced by a thread that calls later. This gives
 * the tightest real-time order that is still sound. */
void vs_on_op_start(void (*cb)(int)) { vs_op_start_cb = cb; }

static void op_start(int i)
{
    struct vs_op *o = &vs_hist[i];
    if (o->started) return;
    o->started = 1;
    o->inv_seq = vs.seq++;
    o->inv_step = vs_stats.steps;
    if (vs_op_start_cb) vs_op_start_cb(i);
}

int vs_op_begin(int kind, intptr_t arg, int obj)
{
    if (vs_nhist >= VS_MAX_OPS) {
        snprintf(vs_errmsg, sizeof(vs_errmsg), "history overflow");
        return -1;
    }
    int i = vs_nhist++;
    struct vs_op *o = &vs_hist[i];
    memset(o, 0, sizeof(*o));
    o->thread = vs.cur >= 0 ? vs.cur : 0xff;
    o->kind = kind;
    o->obj = obj;
    o->arg = arg;
    if (vs.cur >= 0) vs.th[vs.cur].cur_op = i;
    else { vs.seq_op = i; op_start(i); }
    return i;
}

void vs_op_end(intptr_t ret)
{
    int i = vs.cur >= 0 ? vs.th[vs.cur].cur_op : vs.seq_op;
    if (i < 0) return;
    struct vs_op *o = &vs_hist[i];
    op_start(i);
    o->ret = ret;
    o->res_seq = vs.seq++;
    o->res_step = vs_stats.steps;
    o->done = 1;
    if (vs.cur >= 0) vs.th[vs.cur].cur_op = -1; else vs.seq_op = -1;
}

int vs_op_log(int kind, intptr_t arg, int obj, intptr_t ret)
{
    if (vs_nhist >= VS_MAX_OPS) {
        snprintf(vs_errmsg, sizeof(vs_errmsg), "history overflow");
        return -1;
    }
    int i = vs_nhist++;
    struct vs_op *o = &vs_hist[i];
    memset(o, 0, sizeof(*o));
    o->thread = vs.cur >= 0 ? vs.cur : 0xff;
    o->kind = kind;
    o->obj = obj;
    o->arg = arg;
    o->ret = ret;
    o->started = 1;
    o->inv_seq = vs.seq++;
    o->res_seq = vs.seq++;
    o->inv_step = o->res_step = vs_stats.steps;
    o->done = 1;
    return i;
}

/* ------------------------------------------------------------------ the run loop */

static bool thread_enabled(const struct vs_thread *t)
{
    if (t->state == T_READY)
        return true;
    if (t->state == T_BLOCKED) {
        struct vs_fd *f = fd_find(t->wait_fd);
        return f != NULL && f->value > 0;
    }
    return false;
}

static int lowest(unsigned mask)
{
    for (int i = 0; i < VS_MAX_THREADS; i++)
        if (mask & (1u << i)) return i;
    return -1;
}

int vs_run(const struct vs_config *cfg)
{
    if (!vs.active) {
        snprintf(vs_errmsg, sizeof(vs_errmsg), "vs_run outside a session");
        return VS_INTERNAL;
    }
    unsigned bound = cfg->step_bound ? cfg->step_bound : VS_MAX_STEPS;
    if (bound > VS_MAX_STEPS) bound = VS_MAX_STEPS;
    unsigned first_step = vs_stats.steps;
    int result = VS_DONE;

    /* prime the new threads: run each to its first scheduling point (no shared access yet) */
    for (int i = 0; i < vs_nthreads; i++) {
        struct vs_thread *t = &vs.th[i];
        if (t->state != T_NEW) continue;
        t->state = T_READY;
        to_thread(t);
        if (vs.abort_req) { result = VS_ABORTED; goto out; }
    }

    /* PCT: priorities (a permutation, higher runs first) and change points from the tape */
    unsigned chg[4] = {0, 0, 0, 0};
    int d = 0;
    if (cfg->policy == VS_PCT) {
        d = cfg->pct_d < 0 ? 0 : cfg->pct_d > 3 ? 3 : cfg->pct_d;
        int order[VS_MAX_THREADS], n = vs_nthreads;
        for (int i = 0; i < n; i++) order[i] = i;
        for (int i = 0; i < n; i++) {            /* byte 0 => identity: thread 0 first */
            int j = i + (int)tp_pick(cfg->tape, n - i);
            int tmp = order[j];
            for (int k = j; k > i; k--) order[k] = order[k - 1];
            order[i] = tmp;
        }
        for (int i = 0; i < n; i++)
            vs.th[order[i]].prio = d + (n - i);  /* order[0] highest */
        unsigned est = cfg->pct_est ? cfg->pct_est : 64;
        for (int i = 0; i < d; i++)
            chg[i] = first_step + 1 + (unsigned)tp_range(cfg->tape, 0, est - 1);
    }

    for (;;) {
        unsigned mask = 0;
        bool unfinished = false;
        for (int i = 0; i < vs_nthreads; i++) {
            if (vs.th[i].state != T_DONE) unfinished = true;
            if (thread_enabled(&vs.th[i])) mask |= 1u << i;
        }
        if (!unfinished) { result = VS_DONE; break; }
        if (mask == 0) { result = VS_DEADLOCK; break; }
        if (vs_stats.steps - first_step >= bound || vs_stats.steps >= VS_MAX_STEPS) { result = VS_LIVELOCK; break; }

        int n = __builtin_popcount(mask);
        bool last_ok = vs.last >= 0 && (mask & (1u << vs.last));
        int dflt = last_ok ? vs.last : lowest(mask);
        int pick = dflt;
        switch (cfg->policy) {
        case VS_TAPE:
            if (n > 1) {
                unsigned b = tp_u8(cfg->tape);
                unsigned s = cfg->tape_shift > 0 ? (unsigned)cfg->tape_shift : 0;
                unsigned idx;
                if (s && (b & ((1u << s) - 1)) != 0) idx = 0;
                else idx = (b >> s) % (unsigned)n;
                /* idx-th enabled thread counting from the default one, cyclically by id */
                int t = dflt;
                while (idx > 0) {
                    t = (t + 1) % vs_nthreads;
                    if (mask & (1u << t)) idx--;
                }
                pick = t;
            }
            break;
        case VS_PCT: {
            for (int round = 0; round < 2; round++) {
                int best = -1;
                for (int i = 0; i < vs_nthreads; i++)
                    if ((mask & (1u << i)) && (best < 0 || vs.th[i].prio > vs.th[best].prio))
                        best = i;
                pick = best;
                bool changed = false;
                if (round == 0)
                    for (int i = 0; i < d; i++)
                        if (chg[i] == vs_stats.steps + 1) {
                            vs.th[best].prio = (unsigned)(d - 1 - i); /* below every initial priority */
                            chg[i] = 0;
                            changed = true;
                        }
                if (!changed) break;
            }
            break;
        }
        case VS_ENUM: {
            unsigned k = vs_stats.steps - first_step;
            unsigned b = 0;
            if (cfg->prefix != NULL) {
                if (vs.runs == 0 && k < cfg->prefix_len) b = cfg->prefix[k];
            } else if (cfg->tape != NULL && vs.runs == 0)
                b = tp_u8(cfg->tape);
            if (b != 0) {
                int t = (int)((b - 1) % (unsigned)vs_nthreads);
                if (mask & (1u << t)) pick = t;
            }
            break;
        }
        }

        struct vs_thread *t = &vs.th[pick];
        unsigned step = vs_stats.steps;
        vs_tr_thread[step] = (uint8_t)pick;
        vs_tr_enabled[step] = (uint8_t)mask;
        vs_tr_kind[step] = (uint8_t)t->pending_kind;
        vs_tr_addr[step] = t->pending_addr;
        if (vs.last >= 0 && vs.last != pick) {
            vs_stats.switches++;
            if (last_ok) vs_stats.preemptions++;
            struct vs_thread *lt = &vs.th[vs.last];
            if (lt->cur_op >= 0 && vs_hist[lt->cur_op].n_access > 0 && lt->state != T_DONE)
                vs_stats.switch_in_op++;
        }
        if (t->cur_op >= 0) {
            struct vs_op *o = &vs_hist[t->cur_op];
            op_start(t->cur_op);
            if (o->n_access > 0 && t->ran && t->last_step + 1 != step)
                o->switched = 1;
            o->n_access++;
            if (t->pending_kind == 3) o->n_cas++;
            if (t->pending_kind == 1) o->n_load++;
            if (t->pending_kind == 8) o->n_fdr++;
            if (t->pending_kind == 9) o->n_fdw++;
        }
        t->last_step = step;
        t->ran = true;
        if (t->state == T_BLOCKED) t->state = T_READY;
        vs_stats.steps++;
        vs.last = pick;
        to_thread(t);
        if (vs.abort_req) { result = VS_ABORTED; break; }
        if (cfg->on_step && cfg->on_step(cfg->opaque)) { result = VS_ABORTED; break; }
    }
out:
    if (vs.runs == 0)
        vs_first_run_steps = vs_stats.steps - first_step;
    vs.runs++;
    vs.last = -1;
    return result;
}

/* ------------------------------------------------------------------ schedule source from the tape */

void vs_config_from_tape(struct vs_config *cfg, struct tape *t)
{
    cfg->tape = t;
    cfg->prefix = NULL;
    cfg->prefix_len = 0;
    cfg->tape_shift = 0;
    cfg->pct_d = 0;
    switch (tp_u8(t) % 6) {
    case 0: cfg->policy = VS_TAPE; break;
    case 1: cfg->policy = VS_ENUM; break;                          /* per-step prefix read from the tape */
    case 2: cfg->policy = VS_PCT; cfg->pct_d = tp_u8(t) % 4; break;
    case 3: cfg->policy = VS_TAPE; cfg->tape_shift = 2; break;
    case 4: cfg->policy = VS_TAPE; cfg->tape_shift = 4; break;
    default: cfg->policy = VS_PCT; cfg->pct_d = 1 + tp_u8(t) % 3; break;
    }
}

const char *vs_policy_name(const struct vs_config *cfg, char *buf, size_t n)
{
    if (cfg->policy == VS_TAPE) snprintf(buf, n, "tape(shift %d)", cfg->tape_shift);
    else if (cfg->policy == VS_PCT) snprintf(buf, n, "pct(d=%d)", cfg->pct_d);
    else snprintf(buf, n, "prefix");
    return buf;
}

/* ------------------------------------------------------------------ rendering */

const char *vs_kind_name(int kind)
{
    switch (kind) {
    case 1: return "load";
    case 2: return "store";
    case 3: return "cmpxchg";
    case 4: return "fetch_add";
    case 5: return "fetch_sub";
    case 6: return "ring-read";
    case 7: return "ring-write";
    case 8: return "fd-read";
    case 9: return "fd-write";
    case VS_K_WAKE: return "wake";
    case VS_K_USER: return "point";
    }
    return "?";
}

void vs_render_schedule(struct vp_report *rep, unsigned from, unsigned to)
{
    if (to > vs_stats.steps) to = vs_stats.steps;
    unsigned i = from;
    while (i < to) {
        unsigned j = i;
        while (j < to && vs_tr_thread[j] == vs_tr_thread[i]) j++;
        vp_render(rep, " T%ux%u", vs_tr_thread[i], j - i);
        i = j;
    }
    vp_render(rep, "\n");
}

void vs_render_steps(struct vp_report *rep, unsigned from, unsigned to,
                     const char *(*name)(const volatile void *addr, char *buf, size_t n))
{
    if (to > vs_stats.steps) to = vs_stats.steps;
    for (unsigned i = from; i < to; i++) {
        char buf[64];
        const char *nm = name ? name(vs_tr_addr[i], buf, sizeof(buf)) : NULL;
        if (nm)
            vp_render(rep, "    step %3u  T%u  %-10s %s\n", i, vs_tr_thread[i], vs_kind_name(vs_tr_kind[i]), nm);
        else
            vp_render(rep, "    step %3u  T%u  %-10s\n", i, vs_tr_thread[i], vs_kind_name(vs_tr_kind[i]));
    }
}

uint64_t vs_trace_hash(uint64_t h)
{
    return vp_hash_bytes(h, vs_tr_thread, vs_stats.steps);
}

/* ------------------------------------------------------------------ bounded enumeration */

struct item { uint32_t len; uint16_t pre; uint8_t bytes[]; };

struct istack { struct item **v; size_t n, cap; };

static void ipush(struct istack *s, const uint8_t *chosen, uint32_t len, uint8_t last, unsigned pre)
{
    struct item *it = malloc(sizeof(*it) + len + 1);
    if (it == NULL) abort();
    it->len = len + 1;
    it->pre = (uint16_t)pre;
    for (uint32_t i = 0; i < len; i++) it->bytes[i] = chosen[i] + 1;
    it->bytes[len] = last + 1;
    if (s->n == s->cap) {
        s->cap = s->cap ? s->cap * 2 : 1024;
        s->v = realloc(s->v, s->cap * sizeof(*s->v));
        if (s->v == NULL) abort();
    }
    s->v[s->n++] = it;
}

/* after a run with prefix length plen and `pre` preemptions in the prefix: push every child */
static void expand(struct istack *s, uint32_t plen, unsigned pre, int bound)
{
    unsigned n = vs_first_run_steps;
    /* preemptions before step i: constant after the prefix (the default never preempts) */
    for (unsigned i = n; i-- > plen; ) {
        unsigned mask = vs_tr_enabled[i];
        int chosen = vs_tr_thread[i];
        int prev = i > 0 ? vs_tr_thread[i - 1] : -1;
        bool prev_ok = prev >= 0 && (mask & (1u << prev));
        for (int t = VS_MAX_THREADS - 1; t >= 0; t--) {
            if (!(mask & (1u << t)) || t == chosen) continue;
            unsigned cost = (prev_ok && t != prev) ? 1 : 0;
            if ((int)(pre + cost) > bound) continue;
            ipush(s, vs_tr_thread, i, (uint8_t)t, pre + cost);
        }
    }
}

struct eshared {
    volatile int stop;
    struct {
        uint64_t evaluations, nontrivial, max_steps;
        uint64_t class_counts[32];
        volatile uint32_t cur_len;
        uint8_t cur[VS_MAX_STEPS + 8];
        int failed;
        char key[96];
        char msg[768];
        uint32_t fail_len;
        uint8_t fail[VS_MAX_STEPS + 8];
        int finished;
    } w[64];
};

static void acc_case(struct eshared *sh, int w, const struct vp_report *rep)
{
    sh->w[w].evaluations++;
    if (rep->nontrivial) sh->w[w].nontrivial++;
    for (int b = 0; b < 32; b++)
        if (rep->classes & (1u << b)) sh->w[w].class_counts[b]++;
    if (vs_stats.steps > sh->w[w].max_steps) sh->w[w].max_steps = vs_stats.steps;
}

/* runs one item in worker slot w; returns the executor status */
static int run_item(struct eshared *sh, int w, vs_enum_fn fn, void *opaque, const struct item *it)
{
    struct vp_report rep;
    memset(&rep, 0, sizeof(rep));
    memcpy(sh->w[w].cur, it->bytes, it->len);
    sh->w[w].cur_len = it->len;
    int r = fn(opaque, it->bytes, it->len, &rep);
    free(rep.render);
    acc_case(sh, w, &rep);
    if (r != 0 && !sh->w[w].failed) {
        sh->w[w].failed = r;
        snprintf(sh->w[w].key, sizeof(sh->w[w].key), "%s", rep.key);
        snprintf(sh->w[w].msg, sizeof(sh->w[w].msg), "%s", rep.msg);
        /* the complete schedule actually run */
        unsigned n = vs_first_run_steps;
        for (unsigned i = 0; i < n; i++) sh->w[w].fail[i] = vs_tr_thread[i] + 1;
        sh->w[w].fail_len = n;
        sh->stop = 1;
    }
    return r;
}

static void dfs(struct eshared *sh, int w, vs_enum_fn fn, void *opaque, struct istack *s, int bound)
{
    while (s->n > 0 && !sh->stop) {
        struct item *it = s->v[--s->n];
        int r = run_item(sh, w, fn, opaque, it);
        if (r == 0)
            expand(s, it->len, it->pre, bound);
        free(it);
    }
    while (s->n > 0) free(s->v[--s->n]);
}

/* re-runs a crashing prefix in a child with stderr captured, to name the crash like bin/check does */
static void describe_crash(vs_enum_fn fn, void *opaque, const uint8_t *prefix, uint32_t len,
                           int sig, char *key, size_t nkey, char *msg, size_t nmsg)
{
    snprintf(key, nkey, "SIGNAL/%d", sig);
    snprintf(msg, nmsg, "killed by signal %d", sig);
    int p[2];
    if (pipe(p) != 0) return;
    pid_t pid = fork();
    if (pid == 0) {
        close(p[0]);
        dup2(p[1], 2);
        struct vp_report rep;
        memset(&rep, 0, sizeof(rep));
        fn(opaque, prefix, len, &rep);
        _exit(0);
    }
    close(p[1]);
    static char buf[16384];
    size_t n = 0;
    ssize_t k;
    while (n < sizeof(buf) - 1 && (k = read(p[0], buf + n, sizeof(buf) - 1 - n)) > 0) n += (size_t)k;
    buf[n] = '\0';
    close(p[0]);
    int st;
    waitpid(pid, &st, 0);
    /* "file:line: func: Assertion `x' failed." */
    char *a = strstr(buf, ": Assertion `");
    if (a != NULL) {
        char *ls = a;
        while (ls > buf && ls[-1] != '\n') ls--;
        char line[512];
        size_t ll = strcspn(ls, "\n");
        if (ll >= sizeof(line)) ll = sizeof(line) - 1;
        memcpy(line, ls, ll);
        line[ll] = '\0';
        snprintf(msg, nmsg, "%s", line);
        /* split file:line: func */
        char file[128] = "?", func[128] = "?";
        char *c1 = strchr(line, ':');
        if (c1) {
            *c1 = '\0';
            const char *base = strrchr(line, '/');
            snprintf(file, sizeof(file), "%s", base ? base + 1 : line);
            char *c2 = strchr(c1 + 1, ':');
            if (c2) {
                char *f = c2 + 1;
                while (*f == ' ') f++;
                char *c3 = strchr(f, ':');
                if (c3) { *c3 = '\0'; snprintf(func, sizeof(func), "%s", f); }
            }
        }
        snprintf(key, nkey, "ASSERT/%s/%s", file, func);
    } else if ((a = strstr(buf, "ERROR: AddressSanitizer: ")) != NULL) {
        /* same naming as bin/check: ASAN/<kind>/<first frame in the repository or harness sources> */
        char kind[64] = "?", func[128] = "?";
        sscanf(a + strlen("ERROR: AddressSanitizer: "), "%63[a-zA-Z0-9_-]", kind);
        const char *repo = getenv("VERIF_REPO");
        for (char *f = strstr(a, "\n    #"); f != NULL; f = strstr(f + 1, "\n    #")) {
            char fn[128], loc[256];
            if (sscanf(f, "\n    #%*d 0x%*x in %127s %255s", fn, loc) != 2) continue;
            if (!(strstr(loc, "/repo/") || (repo && strstr(loc, repo)) || strstr(loc, "/verif/"))) continue;
            if (!strncmp(fn, "__", 2) || strstr(loc, "sanitizer")) continue;
            snprintf(func, sizeof(func), "%s", fn);
            break;
        }
        snprintf(key, nkey, "ASAN/%s/%s", kind, func);
        snprintf(msg, nmsg, "%.700s", a);
    }
}

int vs_enumerate(vs_enum_fn fn, void *opaque, int bound, int jobs, struct vs_enum_result *out)
{
    memset(out, 0, sizeof(*out));
    if (jobs < 1) jobs = 1;
    if (jobs > 63) jobs = 63;
    struct eshared *sh = mmap(NULL, sizeof(*sh), PROT_READ | PROT_WRITE, MAP_SHARED | MAP_ANONYMOUS, -1, 0);
    if (sh == MAP_FAILED) { out->failed = 2; snprintf(out->msg, sizeof(out->msg), "mmap: %s", strerror(errno)); return 2; }
    memset(sh, 0, sizeof(*sh));
    fflush(stdout);
    fflush(stderr);

    /* Stage 1 (one forked process, slot 0): breadth first until there is enough work to spread;
     * the frontier is handed back through a pipe. Stage 2: `jobs` processes, round robin. Everything
     * that runs the code under test is in a child so that an abort() there cannot kill the caller. */
    int fp[2];
    if (pipe(fp) != 0) { out->failed = 2; return 2; }
    pid_t pid = fork();
    if (pid == 0) {
        close(fp[0]);
        struct item *root = malloc(sizeof(*root) + 1);
        root->len = 0; root->pre = 0;
        struct item **fifo = NULL; size_t head = 0, tail = 0, cap = 0;
        if (jobs == 1) {
            struct istack s = {0};
            s.cap = 1024; s.v = malloc(s.cap * sizeof(*s.v));
            s.v[s.n++] = root;
            dfs(sh, 0, fn, opaque, &s, bound);
        } else {
            struct istack q = {0};
            size_t want = (size_t)jobs * 48;
            cap = 4096; fifo = malloc(cap * sizeof(*fifo));
            fifo[tail++] = root;
            while (head < tail && !sh->stop && (tail - head) < want) {
                struct item *it = fifo[head++];
                int r = run_item(sh, 0, fn, opaque, it);
                if (r == 0) {
                    expand(&q, it->len, it->pre, bound);
                    for (size_t i = 0; i < q.n; i++) {
                        if (tail == cap) { cap *= 2; fifo = realloc(fifo, cap * sizeof(*fifo)); if (!fifo) abort(); }
                        fifo[tail++] = q.v[i];
                    }
                    q.n = 0;
                }
                free(it);
            }
        }
        /* hand the frontier back */
        FILE *f = fdopen(fp[1], "wb");
        for (size_t i = head; i < tail && !sh->stop; i++) {
            struct item *it = fifo[i];
            fwrite(&it->len, sizeof(it->len), 1, f);
            fwrite(&it->pre, sizeof(it->pre), 1, f);
            fwrite(it->bytes, 1, it->len, f);
        }
        fclose(f);
        sh->w[0].finished = 1;
        _exit(0);
    }
    close(fp[1]);
    struct istack frontier = {0};
    {
        FILE *f = fdopen(fp[0], "rb");
        uint32_t len; uint16_t pre;
        while (fread(&len, sizeof(len), 1, f) == 1 && fread(&pre, sizeof(pre), 1, f) == 1) {
            struct item *it = malloc(sizeof(*it) + len);
            it->len = len; it->pre = pre;
            if (fread(it->bytes, 1, len, f) != len) { free(it); break; }
            if (frontier.n == frontier.cap) { frontier.cap = frontier.cap ? frontier.cap * 2 : 1024; frontier.v = realloc(frontier.v, frontier.cap * sizeof(*frontier.v)); }
            frontier.v[frontier.n++] = it;
        }
        fclose(f);
    }
    int st = 0;
    waitpid(pid, &st, 0);
    int crashed_slot = -1, crash_sig = 0;
    if (!WIFEXITED(st) || !sh->w[0].finished) {
        crashed_slot = 0;
        crash_sig = WIFSIGNALED(st) ? WTERMSIG(st) : 0;
        sh->stop = 1;
    }

    /* Stage 2 */
    pid_t pids[64];
    int nw = 0;
    if (!sh->stop && frontier.n > 0) {
        nw = jobs;
        for (int w = 1; w <= nw; w++) {
            pid_t c = fork();
            if (c == 0) {
                struct istack s = {0};
                for (size_t i = 0; i < frontier.n; i++)
                    if ((int)(i % (size_t)nw) == w - 1) {
                        if (s.n == s.cap) { s.cap = s.cap ? s.cap * 2 : 1024; s.v = realloc(s.v, s.cap * sizeof(*s.v)); }
                        /* reverse order does not matter: every item is an independent subtree */
                        s.v[s.n++] = frontier.v[i];
                    }
                dfs(sh, w, fn, opaque, &s, bound);
                sh->w[w].finished = 1;
                _exit(0);
            }
            pids[w] = c;
        }
        for (int w = 1; w <= nw; w++) {
            int s2 = 0;
            waitpid(pids[w], &s2, 0);
            if ((!WIFEXITED(s2) || !sh->w[w].finished) && crashed_slot < 0) {
                crashed_slot = w;
                crash_sig = WIFSIGNALED(s2) ? WTERMSIG(s2) : 0;
                sh->stop = 1; /* the others notice at their next schedule */
            }
        }
    }
    for (size_t i = 0; i < frontier.n; i++) free(frontier.v[i]);
    free(frontier.v);

    /* merge */
    for (int w = 0; w <= nw; w++) {
        out->evaluations += sh->w[w].evaluations;
        out->nontrivial += sh->w[w].nontrivial;
        if (sh->w[w].max_steps > out->max_steps) out->max_steps = sh->w[w].max_steps;
        for (int b = 0; b < 32; b++) out->class_counts[b] += sh->w[w].class_counts[b];
    }
    /* a semantic failure (status 1) is preferred over a crash over an internal error */
    for (int pass = 1; pass <= 2 && !out->failed; pass++)
        for (int w = 0; w <= nw && !out->failed; w++)
            if (sh->w[w].failed == pass && (pass == 1 || crashed_slot < 0)) {
                out->failed = pass;
                snprintf(out->key, sizeof(out->key), "%s", sh->w[w].key);
                snprintf(out->msg, sizeof(out->msg), "%s", sh->w[w].msg);
                out->fail_len = sh->w[w].fail_len;
                memcpy(out->fail_prefix, sh->w[w].fail, out->fail_len);
            }
    if (!out->failed && crashed_slot >= 0) {
        out->failed = 1;
        out->crashed = 1;
        out->fail_len = sh->w[crashed_slot].cur_len;
        memcpy(out->fail_prefix, sh->w[crashed_slot].cur, out->fail_len);
        out->evaluations++;
        describe_crash(fn, opaque, out->fail_prefix, out->fail_len, crash_sig,
                       out->key, sizeof(out->key), out->msg, sizeof(out->msg));
    }
    out->complete = !out->failed && !sh->stop;
    munmap(sh, sizeof(*sh));
    return out->failed;
}

/* ------------------------------------------------------------------ extra-mode JSON (the object bin/check expects) */

static void vs_json_str(FILE *f, const char *s)
{
    fputc('"', f);
    for (; *s; s++) {
        unsigned char c = (unsigned char)*s;
        if (c == '"' || c == '\\') { fputc('\\', f); fputc(c, f); }
        else if (c == '\n') fputs("\\n", f);
        else if (c < 0x20 || c >= 0x7f) fprintf(f, "\\u%04x", c);
        else fputc(c, f);
    }
    fputc('"', f);
}

void vs_enum_print_json(const struct vs_enum_result *r, int bound, const char *space,
                        const char *const *class_names, const char *failtape)
{
    FILE *o = stdout;
    fprintf(o, "{\"evaluations\": %llu, \"distinct_nontrivial\": %llu, \"exhaustive\": %s, \"bound\": %d, \"space\": ",
            (unsigned long long)r->evaluations, (unsigned long long)r->nontrivial,
            r->complete && !r->failed ? "true" : "false", bound);
    vs_json_str(o, space);
    fprintf(o, ", \"class_counts\": {");
    int first = 1;
    for (int b = 0; class_names && class_names[b]; b++) {
        fprintf(o, "%s\"%s\": %llu", first ? "" : ", ", class_names[b], (unsigned long long)r->class_counts[b]);
        first = 0;
    }
    fprintf(o, "}");
    if (r->failed) {
        fprintf(o, ", \"failure\": {\"tape\": ");
        vs_json_str(o, failtape ? failtape : "");
        fprintf(o, ", \"key\": ");
        vs_json_str(o, r->failed == 2 ? "INTERNAL" : r->key);
        fprintf(o, ", \"msg\": ");
        vs_json_str(o, r->msg);
        fprintf(o, "}");
    }
    fprintf(o, "}\n");
    fflush(o);
}

/* accumulates b into a (several templates in one extra-mode invocation) */
void vs_enum_merge(struct vs_enum_result *a, const struct vs_enum_result *b)
{
    a->evaluations += b->evaluations;
    a->nontrivial += b->nontrivial;
    for (int i = 0; i < 32; i++) a->class_counts[i] += b->class_counts[i];
    if (b->max_steps > a->max_steps) a->max_steps = b->max_steps;
    if (!b->complete) a->complete = 0;
    if (b->failed && !a->failed) {
        a->failed = b->failed;
        a->crashed = b->crashed;
        memcpy(a->key, b->key, sizeof(a->key));
        memcpy(a->msg, b->msg, sizeof(a->msg));
        a->fail_len = b->fail_len;
        memcpy(a->fail_prefix, b->fail_prefix, b->fail_len);
    }
}

int vs_default_jobs(void)
{
    const char *e = getenv("VERIF_JOBS");
    int jobs = e ? atoi(e) : (int)sysconf(_SC_NPROCESSORS_ONLN);
    return jobs > 0 ? jobs : 4;
}

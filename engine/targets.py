"""Per-property target table, assembled from engine/targets.d/Cxx.py (each defines TARGET and META)."""
import glob, os, importlib.util

REPO = os.environ.get("VERIF_REPO", "/repo")
HERE = os.path.dirname(os.path.abspath(__file__))

def lib(d, exclude=(), only=None):
    """relative paths of lib/<d>/*.c in the repository"""
    r = sorted(os.path.relpath(p, REPO) for p in glob.glob(os.path.join(REPO, "lib", d, "*.c"))
               if os.path.basename(p) not in exclude)
    if only is not None:
        r = [p for p in r if os.path.basename(p) in only]
    return r

LIBUPIPE = lib("upipe")
MEMFIX = ["engine/umem_count.c"]

TARGETS = {}
META = {}
for _p in sorted(glob.glob(os.path.join(HERE, "targets.d", "C*.py"))):
    _pid = os.path.basename(_p)[:-3]
    _spec = importlib.util.spec_from_file_location("targets_d_" + _pid, _p)
    _m = importlib.util.module_from_spec(_spec)
    _m.lib, _m.LIBUPIPE, _m.MEMFIX, _m.REPO = lib, LIBUPIPE, MEMFIX, REPO
    _spec.loader.exec_module(_m)
    TARGETS[_pid] = _m.TARGET
    META[_pid] = _m.META

# Additional executors contributed by separate files (so that parallel harness writers do not edit the same target file):
# engine/targets.d/add_<name>.py defines ADD = { "C01": [exec dict, ...], ... } and optionally RULE = { "C01": "text appended to the rule" }.
for _p in sorted(glob.glob(os.path.join(HERE, "targets.d", "add_*.py"))):
    _spec = importlib.util.spec_from_file_location("targets_d_" + os.path.basename(_p)[:-3], _p)
    _m = importlib.util.module_from_spec(_spec)
    _m.lib, _m.LIBUPIPE, _m.MEMFIX, _m.REPO = lib, LIBUPIPE, MEMFIX, REPO
    _spec.loader.exec_module(_m)
    for _pid, _execs in getattr(_m, "ADD", {}).items():
        TARGETS[_pid]["execs"] = list(TARGETS[_pid]["execs"]) + list(_execs)
    for _pid, _txt in getattr(_m, "RULE", {}).items():
        TARGETS[_pid]["rule"] = TARGETS[_pid]["rule"] + " || " + _txt

"""Per-property target table: executors, sources compiled from the repository, budgets."""
import glob, os

REPO = os.environ.get("VERIF_REPO", "/repo")

def _lib(d, exclude=()):
    return sorted(os.path.relpath(p, REPO) for p in glob.glob(os.path.join(REPO, "lib", d, "*.c"))
                  if os.path.basename(p) not in exclude)

LIBUPIPE = _lib("upipe")
MEMFIX = ["engine/umem_count.c"]

TARGETS = {}

TARGETS["C18"] = dict(
    rule=("tape-decoded sequence of (width 1-32, value) fields, buffer size around the exact need, "
          "read back by ubits_get and by the block bit-stream reader over a generated segmentation and start bit offset; "
          "non-trivial = >=2 fields incl. a 32-bit field or one straddling the 32-bit cache, written into a buffer that is exactly full or too small; "
          "distinct by hash of (fields, buffer size, segmentation, bit offset)"),
    assumptions=["independent MSB-first reference packer in the harness", "ASan red zones around exact-size buffers"],
    execs=[dict(name="bits", harness="harness/C18_bits.c", repo=LIBUPIPE, engine=MEMFIX)],
    quick=dict(cases=30000, budget=40), thorough=dict(cases=600000, budget=400),
)

TARGETS["C03"] = dict(
    rule=("tape-decoded history (<=50 ops) over <=6 block handles: alloc/alloc_from_opaque/dup/splice/split/append/insert/delete/truncate/resize/prepend/copy/merge/write/free "
          "with boundary-biased offsets and sizes (negative, -1, segment boundary +-1, out of range) under a generated manager configuration; after each op a tape-chosen "
          "first access (read/extract/peek/size_linear/scan/find/compare/equal/match) then every handle compared with its byte-vector model through size, extract, read loop, iovec and peek; "
          "non-trivial = a multi-segment handle whose accessor crossed a segment boundary, or an error path taken, or an access right after a cache-moving op; distinct by hash of ops+arguments"),
    assumptions=["byte-vector reference model in the harness", "documented argument domains derived from include/upipe/ubuf_block.h comments", "ASan + exact-size umem areas"],
    execs=[dict(name="blockstr", harness="harness/C03_blockstr.c", repo=LIBUPIPE, engine=MEMFIX)],
    quick=dict(cases=8000, budget=45), thorough=dict(cases=200000, budget=600),
)

"""Per-property target table: executors, sources compiled from the repository, budgets."""
import glob, os

REPO = os.environ.get("VERIF_REPO", "/repo")

def _lib(d, exclude=()):
    return sorted(os.path.relpath(p, REPO) for p in glob.glob(os.path.join(REPO, "lib", d, "*.c"))
                  if os.path.basename(p) not in exclude)

LIBUPIPE = _lib("upipe")
MEMFIX = ["engine/umem_count.c"]

TARGETS = {}

TARGETS["C18"] = dict(
    rule=("tape-decoded sequence of (width 1-32, value) fields, buffer size around the exact need, "
          "read back by ubits_get and by the block bit-stream reader over a generated segmentation and start bit offset; "
          "non-trivial = >=2 fields incl. a 32-bit field or one straddling the 32-bit cache, written into a buffer that is exactly full or too small; "
          "distinct by hash of (fields, buffer size, segmentation, bit offset)"),
    assumptions=["independent MSB-first reference packer in the harness", "ASan red zones around exact-size buffers"],
    execs=[dict(name="bits", harness="harness/C18_bits.c", repo=LIBUPIPE, engine=MEMFIX)],
    quick=dict(cases=30000, budget=40), thorough=dict(cases=600000, budget=400),
)

#include "fake_upump.h"
#include "upipe/urefcount.h"
#include "upipe/ulist.h"
#include "upipe/upool.h"
#include "upipe/upump_common.h"
#include "upipe/ueventfd.h"
#include "upipe/uverif.h"
#include <stdlib.h>
#include <string.h>

#define VFD_BASE 100000
#define VFD_MAX 64

static struct { bool used; unsigned counter; } vfds[VFD_MAX];

void fake_eventfd_reset(void) { memset(vfds, 0, sizeof(vfds)); }
int fake_eventfd_live(void) { int n = 0; for (int i = 0; i < VFD_MAX; i++) n += vfds[i].used; return n; }

/* strong definition: every ueventfd of a binary linking this file is virtual */
int upipe_verif_eventfd(int op, void *p, int arg)
{
    struct ueventfd *fd = p;
    switch (op) {
    case UVERIF_EVENTFD_INIT:
        for (int i = 0; i < VFD_MAX; i++)
            if (!vfds[i].used) {
                vfds[i].used = true;
                vfds[i].counter = arg ? 1 : 0;
                fd->mode = UEVENTFD_MODE_EVENTFD;
                fd->event_fd = VFD_BASE + i;
                return 1;
            }
        return 0;
    case UVERIF_EVENTFD_READ:
        if (fd->event_fd < VFD_BASE) return -1;
        vfds[fd->event_fd - VFD_BASE].counter = 0;
        return 1;
    case UVERIF_EVENTFD_WRITE:
        if (fd->event_fd < VFD_BASE) return -1;
        vfds[fd->event_fd - VFD_BASE].counter++;
        return 1;
    case UVERIF_EVENTFD_CLEAN:
        if (fd->event_fd < VFD_BASE) return -1;
        vfds[fd->event_fd - VFD_BASE].used = false;
        return 1;
    }
    return -1;
}

struct fake_pump {
    int event;
    int fd;
    uint64_t after, repeat, deadline;
    bool active;
    struct uchain link;
    struct upump_common common;
};
UBASE_FROM_TO(fake_pump, upump, upump, common.upump)
UBASE_FROM_TO(fake_pump, uchain, uchain, link)

struct fake_mgr {
    struct urefcount urefcount;
    uint64_t now;
    struct uchain pumps;
    struct upump_common_mgr common_mgr;
    uint8_t upool_extra[];
};
UBASE_FROM_TO(fake_mgr, upump_mgr, upump_mgr, common_mgr.mgr)
UBASE_FROM_TO(fake_mgr, urefcount, urefcount, urefcount)

static struct upump_mgr *current_loop;
struct upump_mgr *fake_upump_current(void) { return current_loop; }

static struct upump *fake_alloc(struct upump_mgr *mgr, int event, va_list args)
{
    struct fake_mgr *fm = fake_mgr_from_upump_mgr(mgr);
    struct fake_pump *fp = upool_alloc(&fm->common_mgr.upump_pool, struct fake_pump *);
    if (fp == NULL) return NULL;
    struct upump *upump = fake_pump_to_upump(fp);
    fp->fd = -1; fp->after = fp->repeat = fp->deadline = 0; fp->active = false;
    switch (event) {
    case UPUMP_TYPE_IDLER: break;
    case UPUMP_TYPE_TIMER:
        fp->after = va_arg(args, uint64_t);
        fp->repeat = va_arg(args, uint64_t);
        break;
    case UPUMP_TYPE_FD_READ: case UPUMP_TYPE_FD_WRITE:
        fp->fd = va_arg(args, int);
        break;
    case UPUMP_TYPE_SIGNAL:
        (void)va_arg(args, int);
        break;
    default:
        upool_free(&fm->common_mgr.upump_pool, fp);
        return NULL;
    }
    fp->event = event;
    uchain_init(&fp->link);
    ulist_add(&fm->pumps, &fp->link);
    upump_common_init(upump);
    return upump;
}

static void fake_real_start(struct upump *upump, bool status)
{
    struct fake_pump *fp = fake_pump_from_upump(upump);
    struct fake_mgr *fm = fake_mgr_from_upump_mgr(upump->mgr);
    if (fp->active) return;
    fp->active = true;
    if (fp->event == UPUMP_TYPE_TIMER)
        fp->deadline = fm->now + fp->after;   /* ev_timer_start: relative 'at' */
}

static void fake_real_stop(struct upump *upump, bool status)
{
    struct fake_pump *fp = fake_pump_from_upump(upump);
    fp->active = false;
}

static void fake_real_restart(struct upump *upump, bool status)
{
    struct fake_pump *fp = fake_pump_from_upump(upump);
    struct fake_mgr *fm = fake_mgr_from_upump_mgr(upump->mgr);
    if (fp->event != UPUMP_TYPE_TIMER) return;   /* as upump_ev: only timers restart */
    if (fp->active && fp->repeat) { fp->deadline = fm->now + fp->repeat; return; }
    fp->active = true;
    fp->deadline = fm->now + fp->after;
}

static void fake_free(struct upump *upump)
{
    struct fake_mgr *fm = fake_mgr_from_upump_mgr(upump->mgr);
    struct fake_pump *fp = fake_pump_from_upump(upump);
    upump_stop(upump);
    upump_common_clean(upump);
    fp->active = false;
    ulist_delete(&fp->link);
    upool_free(&fm->common_mgr.upump_pool, fp);
}

static void *fake_alloc_inner(struct upool *upool)
{
    struct upump_common_mgr *common_mgr = upump_common_mgr_from_upump_pool(upool);
    struct fake_pump *fp = malloc(sizeof(struct fake_pump));
    if (fp == NULL) return NULL;
    fake_pump_to_upump(fp)->mgr = upump_common_mgr_to_upump_mgr(common_mgr);
    return fp;
}
static void fake_free_inner(struct upool *upool, void *fp) { free(fp); }

static int fake_control(struct upump *upump, int command, va_list args)
{
    switch (command) {
    case UPUMP_START: upump_common_start(upump); return UBASE_ERR_NONE;
    case UPUMP_RESTART: upump_common_restart(upump); return UBASE_ERR_NONE;
    case UPUMP_STOP: upump_common_stop(upump); return UBASE_ERR_NONE;
    case UPUMP_FREE: fake_free(upump); return UBASE_ERR_NONE;
    case UPUMP_GET_STATUS: { int *p = va_arg(args, int *); upump_common_get_status(upump, p); return UBASE_ERR_NONE; }
    case UPUMP_SET_STATUS: { int s = va_arg(args, int); upump_common_set_status(upump, s); return UBASE_ERR_NONE; }
    case UPUMP_ALLOC_BLOCKER: { struct upump_blocker **p = va_arg(args, struct upump_blocker **); *p = upump_common_blocker_alloc(upump); return UBASE_ERR_NONE; }
    case UPUMP_FREE_BLOCKER: { struct upump_blocker *b = va_arg(args, struct upump_blocker *); upump_common_blocker_free(b); return UBASE_ERR_NONE; }
    default: return UBASE_ERR_UNHANDLED;
    }
}

/* UPUMP_MGR_RUN (upump_mgr_run): a loop thread asks the manager to run the loop; the harness decides what that means */
static int (*fake_run_cb)(struct upump_mgr *mgr, struct umutex *mutex, void *opaque);
static void *fake_run_opaque;
void fake_upump_set_run_cb(int (*cb)(struct upump_mgr *, struct umutex *, void *), void *opaque) { fake_run_cb = cb; fake_run_opaque = opaque; }

static int fake_mgr_control(struct upump_mgr *mgr, int command, va_list args)
{
    switch (command) {
    case UPUMP_MGR_RUN: {
        struct umutex *mutex = va_arg(args, struct umutex *);
        if (fake_run_cb == NULL) return UBASE_ERR_UNHANDLED;
        return fake_run_cb(mgr, mutex, fake_run_opaque);
    }
    case UPUMP_MGR_VACUUM: upump_common_mgr_vacuum(mgr); return UBASE_ERR_NONE;
    default: return UBASE_ERR_UNHANDLED;
    }
}

static void fake_mgr_free(struct urefcount *urefcount)
{
    struct fake_mgr *fm = fake_mgr_from_urefcount(urefcount);
    upump_common_mgr_clean(fake_mgr_to_upump_mgr(fm));
    free(fm);
}

struct upump_mgr *fake_upump_mgr_alloc(uint16_t pool_depth, uint16_t blocker_pool_depth)
{
    struct fake_mgr *fm = malloc(sizeof(struct fake_mgr) + upump_common_mgr_sizeof(pool_depth, blocker_pool_depth));
    if (fm == NULL) return NULL;
    struct upump_mgr *mgr = fake_mgr_to_upump_mgr(fm);
    mgr->signature = UBASE_FOURCC('f','a','k','e');
    urefcount_init(fake_mgr_to_urefcount(fm), fake_mgr_free);
    fm->common_mgr.mgr.refcount = fake_mgr_to_urefcount(fm);
    fm->common_mgr.mgr.upump_alloc = fake_alloc;
    fm->common_mgr.mgr.upump_control = fake_control;
    fm->common_mgr.mgr.upump_mgr_control = fake_mgr_control;
    upump_common_mgr_init(mgr, pool_depth, blocker_pool_depth, fm->upool_extra,
                          fake_real_start, fake_real_stop, fake_real_restart,
                          fake_alloc_inner, fake_free_inner);
    fm->now = 1000000;
    ulist_init(&fm->pumps);
    return mgr;
}

static bool fd_ready(struct fake_pump *fp)
{
    if (fp->fd >= VFD_BASE && fp->fd < VFD_BASE + VFD_MAX) {
        if (fp->event == UPUMP_TYPE_FD_WRITE) return true;
        return vfds[fp->fd - VFD_BASE].used && vfds[fp->fd - VFD_BASE].counter > 0;
    }
    return false;   /* real descriptors are never ready in the fake loop */
}

static int collect(struct fake_mgr *fm, struct fake_pump **out, int max)
{
    int n = 0, nidle = 0;
    struct uchain *uchain;
    struct fake_pump *idle[64];
    ulist_foreach (&fm->pumps, uchain) {
        struct fake_pump *fp = fake_pump_from_uchain(uchain);
        if (!fp->active) continue;
        switch (fp->event) {
        case UPUMP_TYPE_FD_READ: case UPUMP_TYPE_FD_WRITE:
            if (fd_ready(fp) && n < max) out[n++] = fp;
            break;
        case UPUMP_TYPE_TIMER:
            if (fp->deadline <= fm->now && n < max) out[n++] = fp;
            break;
        case UPUMP_TYPE_IDLER:
            if (nidle < 64) idle[nidle++] = fp;
            break;
        }
    }
    if (n == 0)
        for (int i = 0; i < nidle && n < max; i++) out[n++] = idle[i];
    return n;
}

int fake_upump_count(struct upump_mgr *mgr)
{
    struct fake_mgr *fm = fake_mgr_from_upump_mgr(mgr);
    int n = 0; struct uchain *uchain;
    ulist_foreach (&fm->pumps, uchain) n++;
    return n;
}

int fake_upump_count_opaque(struct upump_mgr *mgr, void *opaque)
{
    struct fake_mgr *fm = fake_mgr_from_upump_mgr(mgr);
    int n = 0; struct uchain *uchain;
    ulist_foreach (&fm->pumps, uchain) if (fake_pump_from_uchain(uchain)->common.upump.opaque == opaque) n++;
    return n;
}

int fake_upump_active(struct upump_mgr *mgr)
{
    struct fake_mgr *fm = fake_mgr_from_upump_mgr(mgr);
    int n = 0; struct uchain *uchain;
    ulist_foreach (&fm->pumps, uchain) if (fake_pump_from_uchain(uchain)->active) n++;
    return n;
}

int fake_upump_runnable(struct upump_mgr *mgr)
{
    struct fake_pump *l[64];
    return collect(fake_mgr_from_upump_mgr(mgr), l, 64);
}

bool fake_upump_step(struct upump_mgr *mgr, unsigned choice)
{
    struct fake_mgr *fm = fake_mgr_from_upump_mgr(mgr);
    struct fake_pump *l[64];
    int n = collect(fm, l, 64);
    if (n == 0) return false;
    struct fake_pump *fp = l[choice % n];
    if (fp->event == UPUMP_TYPE_TIMER) {
        if (fp->repeat) fp->deadline = fm->now + fp->repeat;
        else fp->active = false;          /* libev stops a one-shot timer before invoking it */
    }
    struct upump_mgr *saved = current_loop;
    current_loop = mgr;
    upump_mgr_use(mgr);
    upump_common_dispatch(fake_pump_to_upump(fp));
    upump_mgr_release(mgr);
    current_loop = saved;
    return true;
}

bool fake_upump_advance(struct upump_mgr *mgr)
{
    struct fake_mgr *fm = fake_mgr_from_upump_mgr(mgr);
    uint64_t best = UINT64_MAX; struct uchain *uchain;
    ulist_foreach (&fm->pumps, uchain) {
        struct fake_pump *fp = fake_pump_from_uchain(uchain);
        if (fp->active && fp->event == UPUMP_TYPE_TIMER && fp->deadline < best) best = fp->deadline;
    }
    if (best == UINT64_MAX) return false;
    if (best > fm->now) fm->now = best;
    return true;
}

void fake_upump_sleep(struct upump_mgr *mgr, uint64_t delta) { fake_mgr_from_upump_mgr(mgr)->now += delta; }
uint64_t fake_upump_now(struct upump_mgr *mgr) { return fake_mgr_from_upump_mgr(mgr)->now; }

/* ---- explicit firing of harness-owned source pumps (added for harness/pipes_hold.c) ---- */
bool fake_upump_pump_active(struct upump *upump)
{
    struct fake_pump *fp = fake_pump_from_upump(upump);
    return fp->active && fp->common.started && ulist_empty(&fp->common.blockers);
}

int fake_upump_pump_blockers(struct upump *upump)
{
    struct fake_pump *fp = fake_pump_from_upump(upump);
    int n = 0; struct uchain *uchain;
    ulist_foreach (&fp->common.blockers, uchain) n++;
    return n;
}

bool fake_upump_fire(struct upump *upump)
{
    if (!fake_upump_pump_active(upump)) return false;
    struct fake_pump *fp = fake_pump_from_upump(upump);
    struct upump_mgr *mgr = upump->mgr;
    struct fake_mgr *fm = fake_mgr_from_upump_mgr(mgr);
    if (fp->event == UPUMP_TYPE_TIMER) {
        if (fp->repeat) fp->deadline = fm->now + fp->repeat;
        else fp->active = false;
    }
    struct upump_mgr *saved = current_loop;
    current_loop = mgr;
    upump_mgr_use(mgr);
    upump_common_dispatch(upump);
    upump_mgr_release(mgr);
    current_loop = saved;
    return true;
}

int fake_upump_timers(struct upump_mgr *mgr, uint64_t *earliest_p)
{
    struct fake_mgr *fm = fake_mgr_from_upump_mgr(mgr);
    uint64_t best = UINT64_MAX; int n = 0; struct uchain *uchain;
    ulist_foreach (&fm->pumps, uchain) {
        struct fake_pump *fp = fake_pump_from_uchain(uchain);
        if (fp->active && fp->event == UPUMP_TYPE_TIMER) { n++; if (fp->deadline < best) best = fp->deadline; }
    }
    if (earliest_p) *earliest_p = best;
    return n;
}

/* ---- fake clock ---- */
struct fake_uclock {
    struct urefcount urefcount;
    struct upump_mgr *mgr;
    uint64_t offset;
    struct uclock uclock;
};
UBASE_FROM_TO(fake_uclock, uclock, uclock, uclock)
UBASE_FROM_TO(fake_uclock, urefcount, urefcount, urefcount)

static uint64_t fake_uclock_now(struct uclock *uclock)
{
    struct fake_uclock *f = fake_uclock_from_uclock(uclock);
    return fake_upump_now(f->mgr) + f->offset;
}
static void fake_uclock_free(struct urefcount *urefcount)
{
    struct fake_uclock *f = fake_uclock_from_urefcount(urefcount);
    upump_mgr_release(f->mgr);
    free(f);
}
struct uclock *fake_uclock_alloc(struct upump_mgr *mgr, uint64_t offset)
{
    struct fake_uclock *f = calloc(1, sizeof(*f));
    if (!f) return NULL;
    urefcount_init(&f->urefcount, fake_uclock_free);
    f->mgr = upump_mgr_use(mgr);
    f->offset = offset;
    f->uclock.refcount = &f->urefcount;
    f->uclock.uclock_now = fake_uclock_now;
    return &f->uclock;
}

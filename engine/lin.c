/* Wing-Gong linearizability search with memoisation; see lin.h for the specification checked. */
#include "lin.h"
#include <stdlib.h>
#include <string.h>
#include <stdbool.h>

struct memo_ent { uint64_t mask, state; uint32_t g; uint32_t epoch; };

#define MEMO_STATIC_BITS 14
static struct memo_ent memo_static[1u << MEMO_STATIC_BITS];
static uint32_t memo_epoch;

struct ctx {
    const struct lin_op *ops;
    int n;
    enum lin_spec spec;
    int cap;
    uint32_t inv[LIN_MAX_OPS], res[LIN_MAX_OPS];   /* ranks 0..2n-1 */
    struct memo_ent *tab;
    size_t tab_mask, tab_used;
    bool tab_heap;
    struct lin_result *r;
    uint8_t path[LIN_MAX_OPS];
    int best;
};

static uint64_t hash3(uint64_t a, uint64_t b, uint32_t c)
{
    uint64_t h = a * 0x9e3779b97f4a7c15ULL;
    h ^= (b + 0x7f4a7c159e3779b9ULL + (h << 6) + (h >> 2));
    h *= 0xff51afd7ed558ccdULL;
    h ^= c + (h >> 29);
    h *= 0xc4ceb9fe1a85ec53ULL;
    return h ^ (h >> 32);
}

static void memo_grow(struct ctx *c)
{
    size_t ncap = (c->tab_mask + 1) * 4;
    struct memo_ent *nt = calloc(ncap, sizeof(*nt));
    if (nt == NULL) abort();
    for (size_t i = 0; i <= c->tab_mask; i++) {
        struct memo_ent *e = &c->tab[i];
        if (e->epoch != memo_epoch) continue;
        size_t j = hash3(e->mask, e->state, e->g) & (ncap - 1);
        while (nt[j].epoch == memo_epoch) j = (j + 1) & (ncap - 1);
        nt[j] = *e;
    }
    if (c->tab_heap) free(c->tab);
    c->tab = nt;
    c->tab_mask = ncap - 1;
    c->tab_heap = true;
}

/* returns true if already present, else inserts */
static bool memo_test_set(struct ctx *c, uint64_t mask, uint64_t state, uint32_t g)
{
    if (c->tab_used * 10 >= (c->tab_mask + 1) * 6)
        memo_grow(c);
    size_t j = hash3(mask, state, g) & c->tab_mask;
    for (;;) {
        struct memo_ent *e = &c->tab[j];
        if (e->epoch != memo_epoch) {
            e->mask = mask; e->state = state; e->g = g; e->epoch = memo_epoch;
            c->tab_used++;
            return false;
        }
        if (e->mask == mask && e->state == state && e->g == g)
            return true;
        j = (j + 1) & c->tab_mask;
    }
}

/* abstract state: FIFO/LIFO = length in bits 60..63, elements 6 bits each, element 0 = oldest;
 * BAG = bit v set iff value v stored */
static inline int st_len(const struct ctx *c, uint64_t s)
{
    return c->spec == LIN_BAG ? __builtin_popcountll(s) : (int)(s >> 60);
}
static inline uint64_t seq_get(uint64_t s, int i) { return (s >> (6 * i)) & 63; }

static bool apply(const struct ctx *c, uint64_t s, const struct lin_op *o, uint64_t *ns)
{
    int len = st_len(c, s);
    if (o->kind == LIN_PUSH) {
        if (!o->ok) { *ns = s; return true; }   /* legality of the refusal is decided by the caller (needs the gap) */
        if (len >= c->cap) return false;
        if (c->spec == LIN_BAG) {
            if (s & (1ULL << o->val)) return false;     /* duplicate element */
            *ns = s | (1ULL << o->val);
        } else {
            uint64_t body = s & ((1ULL << 60) - 1);
            body |= (uint64_t)o->val << (6 * len);
            *ns = body | ((uint64_t)(len + 1) << 60);
        }
        return true;
    }
    /* pop */
    if (!o->ok) { *ns = s; return len == 0; }
    if (len == 0) return false;
    if (c->spec == LIN_BAG) {
        if (!(s & (1ULL << o->val))) return false;
        *ns = s & ~(1ULL << o->val);
        return true;
    }
    uint64_t body = s & ((1ULL << 60) - 1);
    if (c->spec == LIN_FIFO) {
        if (seq_get(body, 0) != o->val) return false;
        body >>= 6;
    } else {
        if (seq_get(body, len - 1) != o->val) return false;
        body &= ~(63ULL << (6 * (len - 1)));
    }
    *ns = body | ((uint64_t)(len - 1) << 60);
    return true;
}

static bool search(struct ctx *c, uint64_t mask, uint64_t state, uint32_t g, int depth)
{
    const int n = c->n;
    c->r->states++;
    if (depth == n) {
        memcpy(c->r->order, c->path, (size_t)n);
        c->r->n_order = n;
        return true;
    }
    if (memo_test_set(c, mask, state, g))
        return false;
    /* every operation not yet linearized needs a gap >= the one chosen now and < its response */
    uint32_t dl = UINT32_MAX;
    for (int i = 0; i < n; i++)
        if (!(mask & (1ULL << i)) && c->res[i] - 1 < dl)
            dl = c->res[i] - 1;
    bool improved = false;
    if (depth > c->best) {
        c->best = depth;
        memcpy(c->r->order, c->path, (size_t)depth);
        c->r->n_order = depth;
        c->r->n_stuck = 0;
        improved = true;
    }
    for (int i = 0; i < n; i++) {
        if (mask & (1ULL << i)) continue;
        uint32_t gx = g > c->inv[i] ? g : c->inv[i];
        if (gx > dl) continue;                     /* some other operation would have returned already */
        if (improved && c->r->n_stuck < LIN_MAX_OPS)
            c->r->stuck[c->r->n_stuck++] = i;
        const struct lin_op *o = &c->ops[i];
        uint64_t ns;
        if (!apply(c, state, o, &ns)) continue;
        if (o->kind == LIN_PUSH && !o->ok) {
            /* slots that may be taken at gap gg: the stored elements, plus one per successful push in
             * progress that is not linearized yet, plus one per successful pop in progress that already is */
            int len = st_len(c, state);
            uint32_t hi = c->res[i] - 1 < dl ? c->res[i] - 1 : dl;
            bool found = false;
            for (uint32_t gg = gx; gg <= hi && !found; gg++) {
                int taken = len;
                for (int y = 0; y < n; y++) {
                    if (y == i || !c->ops[y].ok) continue;
                    if (!(c->inv[y] <= gg && gg < c->res[y])) continue;
                    bool lin = (mask >> y) & 1;
                    if (c->ops[y].kind == LIN_PUSH ? !lin : lin) taken++;
                }
                if (taken >= c->cap) { gx = gg; found = true; }
            }
            if (!found) continue;
        }
        c->path[depth] = (uint8_t)i;
        if (search(c, mask | (1ULL << i), ns, gx, depth + 1))
            return true;
    }
    return false;
}

static int cmp_u32(const void *a, const void *b)
{
    uint32_t x = *(const uint32_t *)a, y = *(const uint32_t *)b;
    return x < y ? -1 : x > y;
}

int lin_check(const struct lin_op *ops, int n, enum lin_spec spec, int cap, struct lin_result *res)
{
    static struct ctx c;   /* large; lin_check is not re-entrant */
    struct lin_result local;
    if (res == NULL) res = &local;
    memset(res, 0, sizeof(*res));
    if (n < 0 || n > LIN_MAX_OPS || cap < 0 || cap > LIN_MAX_CAP)
        return -1;
    if (n == 0) { res->ok = 1; return 1; }
    memset(&c, 0, sizeof(c));
    c.ops = ops; c.n = n; c.spec = spec; c.cap = cap; c.r = res; c.best = -1;
    /* rank the event positions */
    uint32_t ev[2 * LIN_MAX_OPS];
    for (int i = 0; i < n; i++) {
        if (ops[i].inv >= ops[i].res) return -1;
        if ((ops[i].kind == LIN_PUSH || ops[i].ok) && (ops[i].val < 1 || ops[i].val > LIN_MAX_VAL)) return -1;
        ev[2 * i] = ops[i].inv;
        ev[2 * i + 1] = ops[i].res;
    }
    qsort(ev, (size_t)(2 * n), sizeof(ev[0]), cmp_u32);
    for (int i = 1; i < 2 * n; i++)
        if (ev[i] == ev[i - 1]) return -1;
    for (int i = 0; i < n; i++) {
        uint32_t *p = bsearch(&ops[i].inv, ev, (size_t)(2 * n), sizeof(ev[0]), cmp_u32);
        uint32_t *q = bsearch(&ops[i].res, ev, (size_t)(2 * n), sizeof(ev[0]), cmp_u32);
        c.inv[i] = (uint32_t)(p - ev);
        c.res[i] = (uint32_t)(q - ev);
    }
    if (++memo_epoch == 0) {   /* wrapped: invalidate the static table */
        memset(memo_static, 0, sizeof(memo_static));
        memo_epoch = 1;
    }
    c.tab = memo_static;
    c.tab_mask = (1u << MEMO_STATIC_BITS) - 1;
    c.tab_used = 0;
    c.tab_heap = false;
    bool ok = search(&c, 0, 0, 0, 0);
    if (c.tab_heap) free(c.tab);
    res->ok = ok;
    return ok ? 1 : 0;
}

/* Memory fixture: counting umem + udict/uref/block managers, audited at the end of a case. */
#ifndef FIX_MEM_H_
#define FIX_MEM_H_
#include "umem_count.h"
#include "upipe/udict.h"
#include "upipe/udict_inline.h"
#include "upipe/uref.h"
#include "upipe/uref_std.h"
#include "upipe/ubuf.h"
#include "upipe/ubuf_block.h"
#include "upipe/ubuf_block_mem.h"
#include <stdio.h>

struct fix_mem {
    struct umem_mgr *umem_mgr;
    struct udict_mgr *udict_mgr;
    struct uref_mgr *uref_mgr;
    struct ubuf_mgr *block_mgr;
    char leakmsg[256];
};

/* udict_min / udict_extra: parameters of the inline dictionary manager (-1: its defaults); 1 / 0 makes every new attribute grow the storage */
static inline int fix_mem_init_udict(struct fix_mem *fm, int pool_depth, int prepend, int append,
                                     int align, int align_offset, int udict_min, int udict_extra)
{
    memset(fm, 0, sizeof(*fm));
    fm->umem_mgr = umem_count_mgr_alloc();
    if (!fm->umem_mgr) return -1;
    fm->udict_mgr = udict_inline_mgr_alloc(pool_depth, fm->umem_mgr, udict_min, udict_extra);
    fm->uref_mgr = uref_std_mgr_alloc(pool_depth, fm->udict_mgr, 0);
    fm->block_mgr = ubuf_block_mem_mgr_alloc(pool_depth, pool_depth, fm->umem_mgr,
                                             prepend, append, align, align_offset);
    if (!fm->udict_mgr || !fm->uref_mgr || !fm->block_mgr) return -1;
    return 0;
}

static inline int fix_mem_init_full(struct fix_mem *fm, int pool_depth, int prepend, int append,
                                    int align, int align_offset)
{
    return fix_mem_init_udict(fm, pool_depth, prepend, append, align, align_offset, -1, -1);
}

static inline int fix_mem_init(struct fix_mem *fm, int pool_depth, int prepend, int append)
{
    return fix_mem_init_full(fm, pool_depth, prepend, append, 0, 0);
}

/* Releases the managers; returns NULL if everything was returned, else a message.
 * Each manager must be back to the creator's single reference before release
 * (uref_mgr holds one on udict_mgr; udict/block managers hold one each on umem_mgr). */
static inline const char *fix_mem_clean(struct fix_mem *fm)
{
    const char *r = NULL;
    if (!urefcount_single(fm->block_mgr->refcount)) r = "block manager still referenced (leaked ubuf)";
    else if (!urefcount_single(fm->uref_mgr->refcount)) r = "uref manager still referenced (leaked uref)";
    ubuf_mgr_vacuum(fm->block_mgr);
    uref_mgr_vacuum(fm->uref_mgr);
    udict_mgr_vacuum(fm->udict_mgr);
    ubuf_mgr_release(fm->block_mgr);
    uref_mgr_release(fm->uref_mgr);
    if (!r && !urefcount_single(fm->udict_mgr->refcount)) r = "udict manager still referenced (leaked udict)";
    udict_mgr_release(fm->udict_mgr);
    struct umem_count_stats *st = umem_count_stats(fm->umem_mgr);
    if (!r && st->bad_free) r = "free of an unknown memory area";
    if (!r && st->live != 0) {
        snprintf(fm->leakmsg, sizeof(fm->leakmsg), "%ld memory areas (%ld bytes) still allocated", st->live, st->live_bytes);
        r = fm->leakmsg;
    }
    if (!r && !umem_count_single(fm->umem_mgr)) r = "umem manager still referenced";
    if (r && r != fm->leakmsg) { snprintf(fm->leakmsg, sizeof(fm->leakmsg), "%s", r); r = fm->leakmsg; }
    umem_mgr_release(fm->umem_mgr);
    return r;
}
#endif
